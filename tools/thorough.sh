#!/bin/bash
# thorough tier of one property: same rules + dependency sweep + call-graph cross-check (+ mutant sensitivity sweep)
cd "$(dirname "$0")/.."
exec bin/arcacheck -repo /repo -property "$1" -tier thorough
