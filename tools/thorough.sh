#!/bin/bash
# thorough tier of one property: the property's rules on the current /repo tree + dependency sweeps + whole-program VTA
# cross-check of the call graph + the sensitivity sweep over mutants/<Cnn>/*.diff (scratch copies under $TMPDIR, removed).
cd "$(dirname "$0")/.."
exec bin/arcacheck -repo /repo -property "$1" -tier thorough
