#!/usr/bin/env python3
"""usage: tools/seed_store.py <seedout-dir> <verify_results.jsonl> [seed ids...]
Copies a verified seeded change into /verif/seeded/<id>/ (patch.diff, demo_test.go, notes.md) and writes meta.json:
which property it breaks, what it needs in order to manifest (from the author's notes), what was run to confirm it
(tools/verify_seed.sh results) and which obligations of the checker fire on it (tools/seedcheck.sh)."""
import json, os, re, shutil, subprocess, sys
src, resf = sys.argv[1], sys.argv[2]
want = set(sys.argv[3:])
results = {}
for ln in open(resf):
    ln = ln.strip()
    if ln.startswith('{'):
        r = json.loads(ln); results[r['seed']] = r
def section(md, title_re):
    m = re.search(r'^#+\s*(' + title_re + r')[^\n]*\n(.*?)(?=^#+\s|\Z)', md, re.S | re.M | re.I)
    return re.sub(r'\s+', ' ', m.group(2)).strip() if m else ''
for sid in sorted(results):
    if want and sid not in want: continue
    r = results[sid]
    ok = r.get('demo_without_patch_exit') == 0 and r.get('build_with_patch_exit') == 0 and r.get('demo_with_patch_exit') != 0 and r.get('suite_with_patch_exit') == 0
    if not ok:
        print('NOT CONFIRMED', sid, r); continue
    d = os.path.join(src, sid); out = os.path.join('/verif/seeded', sid)
    os.makedirs(out, exist_ok=True)
    for f in os.listdir(d):
        if f.endswith('.go'):
            shutil.copy(os.path.join(d, f), os.path.join(out, f + '.txt'))  # inert text: not compiled with anything
        elif f in ('patch.diff', 'notes.md'):
            shutil.copy(os.path.join(d, f), os.path.join(out, f))
    md = open(os.path.join(d, 'notes.md')).read() if os.path.exists(os.path.join(d, 'notes.md')) else ''
    fired = subprocess.run(['/verif/tools/seedcheck.sh', os.path.join(d, 'patch.diff')], capture_output=True, text=True).stdout
    fired = [l.strip() for l in fired.splitlines() if l.startswith(('VIOLATED', 'UNDECIDED'))]
    title = md.splitlines()[0].lstrip('# ').strip() if md else sid
    meta = {
        'id': sid,
        'property': sid.split('-')[0],
        'title': title,
        'author': 'independent sub-agent given only the property text and a scratch worktree of /repo',
        'breaks': section(md, r'why[^\n]*') or section(md, r'change'),
        'needs_to_manifest': section(md, r'what is needed[^\n]*|what it needs[^\n]*|trigger[^\n]*|needs[^\n]*'),
        'demonstration': {'file': 'demo_test.go.txt', 'package_dir': r['pkg'], 'tests': r['tests']},
        'confirmed_by': {
            'tool': 'tools/verify_seed.sh (scratch worktree of /repo HEAD under /tmp, removed afterwards)',
            'demo_without_patch_exit': r['demo_without_patch_exit'], 'build_with_patch_exit': r['build_with_patch_exit'],
            'demo_with_patch_exit': r['demo_with_patch_exit'],
            'suite_with_patch_exit (go test -vet=off -count=1 on every package except the podman-dependent root package)': r['suite_with_patch_exit'],
        },
        'checker_result': {'tool': 'tools/seedcheck.sh (patch applied to /repo working tree, all 20 checks, restored)', 'fired': fired,
                           'detected': bool(fired),
                           'detected_by_own_property_check': any(l.split()[1].startswith(sid.split('-')[0] + '.') for l in fired)},
    }
    json.dump(meta, open(os.path.join(out, 'meta.json'), 'w'), indent=1)
    own = any(l.split()[1].startswith(sid.split('-')[0] + '.') for l in fired)
    print(sid, 'stored;', 'OWN' if own else ('OTHER-ONLY' if fired else 'MISSED'), sorted(set(l.split()[1] for l in fired)))
