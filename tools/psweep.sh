#!/bin/bash
# Parallel version of sweep.sh + benign.sh: usage tools/psweep.sh [jobs] [mutants|benign|all]
cd "$(dirname "$0")/.."
J=${1:-6}; W=${2:-all}
L=""
[ "$W" != benign ] && L="$L $(ls mutants/*/*.diff)"
[ "$W" != mutants ] && L="$L $(ls benign/*.diff)"
echo $L | tr ' ' '\n' | xargs -P $J -n 1 tools/sweep_one.sh | sort
