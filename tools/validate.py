#!/usr/bin/env python3-vt
import json, jsonschema, glob, sys
m=json.load(open('/verif/MANIFEST.json'))
jsonschema.validate(m,json.load(open('/root/.vp/MANIFEST.schema.json'))); print("manifest valid:",len(m['checks']),"checks")
s=json.load(open('/root/.vp/EVIDENCE.schema.json'))
for c in m['checks']:
    try:
        e=json.load(open(c['evidence_file'])); jsonschema.validate(e,s)
        print(c['property_id'],'evidence valid: obligations',e['coverage']['obligations'],'nontrivial',e['coverage']['distinct_nontrivial'],'violations',e.get('violations'))
    except Exception as ex:
        print(c['property_id'],'EVIDENCE PROBLEM',str(ex)[:200]); 
