#!/bin/bash
# Sensitivity sweep: applies each stored mutant to a scratch worktree of /repo HEAD, runs the property's rules on it
# and reports whether the expected rule fired. Judges the checker, not the repository: always exits 0 unless usage error.
# usage: tools/sweep.sh [Cnn ...]   (default: all)
cd "$(dirname "$0")/.."
VERIF=$(pwd)
export GOFLAGS=-mod=mod GOPROXY=off GOSUMDB=off GOTOOLCHAIN=local; unset GOWORK
PROPS="$@"; [ -z "$PROPS" ] && PROPS=$(ls mutants 2>/dev/null)
caught=0; missed=0; skipped=0
for P in $PROPS; do
  for D in mutants/$P/*.diff; do
    [ -f "$D" ] || continue
    EXP=$(grep -m1 '^# expect:' "$D" | sed 's/# expect: *//')
    WT=$(mktemp -d /tmp/sweep.XXXXXX)
    git -C /repo worktree add --detach "$WT" HEAD -q 2>/dev/null || { cp -r /repo/. "$WT"/; }
    if ! git -C "$WT" apply "$VERIF/$D" 2>/dev/null; then
      echo "SKIPPED  $D (does not apply to the current tree)"; skipped=$((skipped+1))
    else
      OUT=$("$VERIF/bin/arcacheck" -repo "$WT" -verif "$VERIF" -property $P -no-evidence 2>&1)
      HIT=""
      for R in $(echo $EXP | tr ',' ' '); do
        if echo "$OUT" | grep -q "VIOLATED $R\|UNDECIDED $R"; then HIT="$HIT $R"; fi
      done
      if [ -n "$HIT" ]; then echo "CAUGHT   $D by$HIT"; caught=$((caught+1));
      else
        ANY=$(echo "$OUT" | grep "VIOLATED\|UNDECIDED" | awk '{print $2}' | sort -u | tr '\n' ' ')
        echo "MISSED   $D expected $EXP (fired: ${ANY:-none})"; missed=$((missed+1)); fi
    fi
    git -C /repo worktree remove --force "$WT" >/dev/null 2>&1 || rm -rf "$WT"
  done
done
echo "sweep: caught=$caught missed=$missed skipped=$skipped"
