#!/bin/bash
# usage: tools/mkmutant.sh <Cnn> <name> <expected-rule> <file> <python-edit-expression reading s and producing s>
# Creates /verif/mutants/<Cnn>/<name>.diff from a single-point edit applied to a scratch worktree of /repo HEAD.
set -e
P=$1; NAME=$2; RULE=$3; FILE=$4; EDIT=$5
WT=$(mktemp -d /tmp/mut.XXXXXX)
git -C /repo worktree add --detach "$WT" HEAD -q
trap 'git -C /repo worktree remove --force "$WT" >/dev/null 2>&1' EXIT
python3 - "$WT/$FILE" "$EDIT" <<'PY'
import sys
p=sys.argv[1]; s=open(p).read(); s0=s
exec(sys.argv[2])
assert s!=s0, "edit did not change the file"
open(p,'w').write(s)
PY
(cd "$WT" && gofmt -l . | grep -v testdata || true)
export GOFLAGS=-mod=mod GOPROXY=off GOSUMDB=off GOTOOLCHAIN=local; unset GOWORK
(cd "$WT" && go build ./... ) || { echo "MUTANT DOES NOT COMPILE"; exit 1; }
mkdir -p /verif/mutants/$P
{ echo "# property: $P"; echo "# expect: $RULE"; echo "# $NAME"; git -C "$WT" diff; } > /verif/mutants/$P/$NAME.diff
echo "wrote mutants/$P/$NAME.diff"
