#!/bin/bash
# Builds the checker from files on disk only (module cache: golang.org/x/tools v0.29.0 and deps).
set -e
cd "$(dirname "$0")/.."
export GOFLAGS=-mod=mod GOPROXY=off GOSUMDB=off GOTOOLCHAIN=local
unset GOWORK
mkdir -p bin evidence
(cd checker && go build -o ../bin/arcacheck ./cmd/arcacheck)
echo "built bin/arcacheck"
