#!/bin/bash
# Silence test: applies every behaviour-preserving edit under benign/*.diff to a scratch worktree of /repo HEAD and runs
# all 20 checks on it. Every one must stay silent. usage: tools/benign.sh [name-prefix]
cd "$(dirname "$0")/.."
VERIF=$(pwd)
export GOFLAGS=-mod=mod GOPROXY=off GOSUMDB=off GOTOOLCHAIN=local; unset GOWORK
silent=0; alarm=0; skipped=0
for D in benign/${1}*.diff; do
  [ -f "$D" ] || continue
  WT=$(mktemp -d /tmp/bensw.XXXXXX)
  git -C /repo worktree add --detach "$WT" HEAD -q 2>/dev/null
  if ! git -C "$WT" apply "$VERIF/$D" 2>/dev/null; then
    echo "SKIPPED  $D (does not apply)"; skipped=$((skipped+1))
  else
    OUT=$("$VERIF/bin/arcacheck" -repo "$WT" -verif "$VERIF" -property all -no-evidence 2>&1 | grep "VIOLATED\|UNDECIDED" | awk '{print $1,$2,$3}' | sort -u)
    if [ -z "$OUT" ]; then echo "SILENT   $D"; silent=$((silent+1)); else echo "ALARM    $D"; echo "$OUT" | sed 's/^/           /'; alarm=$((alarm+1)); fi
  fi
  git -C /repo worktree remove --force "$WT" >/dev/null 2>&1 || rm -rf "$WT"
done
echo "benign: silent=$silent alarm=$alarm skipped=$skipped"
